"""Fault injection around the external sorter's I/O, from outside the library:
`tempfile.mkstemp`, `gzip.open` (and the returned handle's write/read/close), `os.close`, `os.remove`
as seen by `maflib.sorter` are wrapped; every call is logged and the k-th call can be made to fail."""
import errno
import os


class Injector:
    def __init__(self, fail_at=None, err=errno.EIO):
        self.calls = []          # (name, detail)
        self.fail_at = fail_at
        self.err = err
        self.fired = None
        self.fds = []            # descriptors handed out by mkstemp
        self.paths = []
        self.handles = []        # gzip handles opened (to check they are closed)

    def _tick(self, name, after=None):
        """Log one I/O call; returns True when this call must fail."""
        k = len(self.calls)
        self.calls.append(name)
        if self.fail_at is not None and k == self.fail_at and self.fired is None:
            self.fired = (k, name)
            return True
        return False

    def _raise(self, name):
        raise OSError(self.err, "injected fault in %s" % name)

    # ---- patched entry points
    def install(self):
        import maflib.sorter as S
        self.S = S
        self.orig = {"mkstemp": S.tempfile.mkstemp, "gzip_open": S.gzip.open, "os_close": S.os.close, "os_remove": S.os.remove}
        inj = self

        class TempfileProxy:
            def __getattr__(self, n):
                return getattr(inj_tempfile, n)

            def mkstemp(self, *a, **kw):
                if inj._tick("mkstemp"):
                    inj._raise("mkstemp")
                d, p = inj.orig["mkstemp"](*a, **kw)
                inj.fds.append(d)
                inj.paths.append(p)
                return d, p

        class GzipProxy:
            def __getattr__(self, n):
                return getattr(inj_gzip, n)

            def open(self, path, mode="rb", *a, **kw):
                name = "gzip.open(%s)" % ("w" if "w" in mode else "r")
                if inj._tick(name):
                    inj._raise(name)
                h = inj.orig["gzip_open"](path, mode, *a, **kw)
                w = HandleProxy(h, "w" if "w" in mode else "r")
                inj.handles.append(w)
                return w

        class HandleProxy:
            def __init__(self, h, kind):
                self.h, self.kind = h, kind

            def write(self, data):
                if inj._tick("write"):
                    inj._raise("write")
                return self.h.write(data)

            def read(self, size=-1):
                if inj._tick("read"):
                    inj._raise("read")
                return self.h.read(size)

            def close(self):
                fail = inj._tick("handle.close(%s)" % self.kind)
                self.h.close()            # as on Linux: the descriptor is released even when close() reports an error
                if fail:
                    inj._raise("handle.close")

            @property
            def closed(self):
                return self.h.closed

        class OsProxy:
            def __getattr__(self, n):
                return getattr(inj_os, n)

            def close(self, fd):
                fail = inj._tick("os.close")
                inj.orig["os_close"](fd)  # released even when an error is reported
                if fail:
                    inj._raise("os.close")

            def remove(self, p):
                if inj._tick("os.remove"):
                    inj._raise("os.remove")   # a failed removal leaves the file
                return inj.orig["os_remove"](p)

        import gzip as inj_gzip
        import os as inj_os
        import tempfile as inj_tempfile
        self.saved = (S.tempfile, S.gzip, S.os)
        S.tempfile, S.gzip, S.os = TempfileProxy(), GzipProxy(), OsProxy()

    def uninstall(self):
        self.S.tempfile, self.S.gzip, self.S.os = self.saved

    # ---- observations
    def leaked_files(self):
        return [p for p in self.paths if os.path.exists(p)]

    def leaked_fds(self):
        out = []
        for d in self.fds:
            try:
                os.fstat(d)
                out.append(d)
            except OSError:
                pass
        return out

    def open_handles(self):
        return [h.kind for h in self.handles if not h.closed]

    def cleanup(self):
        for d in self.leaked_fds():
            try:
                os.close(d)
            except OSError:
                pass
        for h in self.handles:
            try:
                h.h.close()
            except Exception:  # noqa
                pass
        for p in self.leaked_files():
            try:
                os.remove(p)
            except OSError:
                pass


class PlanInjector(Injector):
    """Fault plans with more than one failing call, faults that last, and faults other than OSError.

    `plan` is a list of rules; a call fails when some live rule matches it:
      kind   call name as logged ("mkstemp", "gzip.open(w)", "gzip.open(r)", "write", "read", "handle.close(w)",
             "handle.close(r)", "os.close", "os.remove") or "*" for every call
      by     "kind": `from` counts the calls of that name (0-based); "pos": `from` is the position in the whole call log
      from   first matching call that fails
      count  number of calls the rule makes fail (None: every matching call, until the rule heals)
      heal   name of an event after which the rule is off (the harness reports events with `event(name)`; the C18 harness
             reports "close" when the first close() has returned or raised); None: never heals
      exc    "OSError" (default, errno EIO), "EOFError" (what gzip raises on a spill file that ends early) or "zlib.error"
             (what gzip raises on a spill file with damaged contents)"""

    def __init__(self, plan, err=errno.EIO):
        Injector.__init__(self, fail_at=None, err=err)
        self.plan = [dict(r) for r in plan]
        self.hits = [0] * len(self.plan)
        self.by_kind = {}
        self.events = set()
        self.fired_all = []      # (position, call, exception kind) of every injected failure
        self._exc = "OSError"

    def event(self, name):
        self.events.add(name)

    def _tick(self, name, after=None):
        k = len(self.calls)
        self.calls.append(name)
        occ = self.by_kind.get(name, 0)
        self.by_kind[name] = occ + 1
        for idx, r in enumerate(self.plan):
            if r.get("heal") is not None and r["heal"] in self.events:
                continue
            if r.get("kind", "*") not in ("*", name):
                continue
            if (k if r.get("by") == "pos" else occ) < r.get("from", 0):
                continue
            if r.get("count") is not None and self.hits[idx] >= r["count"]:
                continue
            self.hits[idx] += 1
            self._exc = r.get("exc") or "OSError"
            if self.fired is None:
                self.fired = (k, name)
            self.fired_all.append((k, name, self._exc))
            return True
        return False

    def _raise(self, name):
        if self._exc == "EOFError":
            raise EOFError("Compressed file ended before the end-of-stream marker was reached (injected fault in %s)" % name)
        if self._exc == "zlib.error":
            import zlib
            raise zlib.error("Error -3 while decompressing data: invalid block type (injected fault in %s)" % name)
        raise OSError(self.err, "injected fault in %s" % name)
