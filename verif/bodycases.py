"""Correspondence for the *translated* method bodies: the PyIR interpreter (lean/MafModel/MafModel/PyIR/Interp.lean) running
the terms `verif/gen_bodies.py` made from /repo's working tree, against the real methods called in-process.

This is what validates the interpreter - the hand-written meaning of the translated Python fragment - and the
translator itself (a mistranslation shows up as a disagreement); the theorems of Props/C01Bodies*, C08Bodies then tie the
interpreted bodies to the hand model for every input."""
import json

from . import colcases, impl, textgen
from .common import enc_val, exc_name, float_table, has_unmodelled, is_model_text

VALUES = [
    {"t": "none"}, {"t": "bool", "v": True}, {"t": "bool", "v": False}, {"t": "int", "v": "0"}, {"t": "int", "v": "-3"}, {"t": "int", "v": "1"},
    {"t": "int", "v": "-1"}, {"t": "int", "v": "7"}, {"t": "int", "v": "2"}, {"t": "float", "v": "1.5"}, {"t": "float", "v": "0.0"},
    {"t": "str", "v": ""}, {"t": "str", "v": "x"}, {"t": "str", "v": "-"}, {"t": "str", "v": "ACGT"}, {"t": "str", "v": "ACGTN"}, {"t": "str", "v": "a;b"}, {"t": "str", "v": "12"},
    {"t": "list", "v": []}, {"t": "list", "v": [{"t": "str", "v": "a"}]}, {"t": "list", "v": [{"t": "str", "v": "a;b"}]}, {"t": "list", "v": [{"t": "str", "v": ""}]},
    {"t": "list", "v": [{"t": "int", "v": "1"}, {"t": "bool", "v": True}]}, {"t": "list", "v": [{"t": "int", "v": "3"}]}, {"t": "list", "v": [{"t": "none"}]},
    {"t": "tuple", "v": [{"t": "str", "v": "a"}, {"t": "str", "v": "b"}]}, {"t": "tuple", "v": []},
    {"t": "enum", "c": "StrandEnum", "m": "Plus"}, {"t": "enum", "c": "VariantTypeEnum", "m": "SNP"}, {"t": "enum", "c": "NullableYesOrNoEnum", "m": "Null"},
    {"t": "enum", "c": "NullableYesOrNoEnum", "m": "Yes"}, {"t": "enum", "c": "PickEnum", "m": "Yes"}, {"t": "enum", "c": "SequencerEnum", "m": "ABIThirtySevenThirty"},
    {"t": "uuid", "v": "12345"}, {"t": "uuid", "v": "0"},
    {"t": "list", "v": [{"t": "enum", "c": "NullableYesOrNoEnum", "m": "No"}]}, {"t": "list", "v": [{"t": "enum", "c": "SequencerEnum", "m": "ABIThirtySevenThirty"}]},
]


def hook_classes():
    """Concrete library classes whose hooks can be called: (name, class)."""
    import maflib.column_types as CT
    from maflib.column import MafCustomColumnRecord
    out = []
    for n, o in sorted(vars(CT).items()):
        if isinstance(o, type) and issubclass(o, MafCustomColumnRecord) and not n.startswith("_"):
            out.append((n, o))
    return out


def impl_validate(cls, value):
    try:
        col = cls.__new__(cls)
        col.key, col.value, col.column_index = "", impl.dec_val(value), None
        return {"invalid": col.__validate__() is not None}
    except Exception as e:  # noqa
        return {"exc": exc_name(e)}


def impl_build(cls, text):
    try:
        return {"value": enc_val(cls.__build__(text))}
    except Exception as e:  # noqa
        return {"exc": exc_name(e)}


def abstract(cls):
    """EnumColumn / SequenceOfValuesColumn themselves: their constant hook is abstract (returns None)."""
    return cls.__name__ in ("EnumColumn", "SequenceOfValuesColumn")


def hook_cases(ctx, out):
    """`__validate__` of every concrete column class on every kind of value, `__build__` on the class's text pool:
    interpreted translated body vs the real method."""
    rng = ctx.rng("bodies")
    reqs, want = [], []
    for name, cls in hook_classes():
        if abstract(cls):
            continue
        for v in VALUES:
            reqs.append({"op": "body.validate", "cls": name, "value": v})
            want.append(impl_validate(cls, v))
        pool = [t for t in colcases.pool_for(cls, rng) if is_model_text(t) and not colcases.dontcare_numeric(t) and not colcases.dontcare_uuid(t)]
        for t in rng.sample(pool, min(len(pool), ctx.scale(25, 200))):
            reqs.append({"op": "body.build", "cls": name, "text": t, "floats": float_table([t])})
            want.append(impl_build(cls, t))
    got = ctx.driver.run(reqs)
    for r, m, i in zip(reqs, got, want):
        out.evaluations += 1
        out.distribution["%s (interpreted translated body vs implementation)" % r["op"]] += 1
        if has_unmodelled(m):
            out.unmodelled += 1
        elif m != i:
            out.disagreements.append({"op": r["op"], "input": r, "model": m, "impl": i})


def compare_cases(ctx, out):
    from maflib.sort_order import SortOrderKey
    vals = [None, 0, 1, -1, 5, 10, "", "1", "10", "2", "X", "chr1", "chr10"]
    reqs, want = [], []
    for a in vals:
        for b in vals:
            reqs.append({"op": "body.compare", "a": a, "b": b})
            try:
                want.append({"value": enc_val(SortOrderKey.compare(a, b))})
            except Exception as e:  # noqa
                want.append({"exc": exc_name(e)})
    got = ctx.driver.run(reqs)
    for r, m, i in zip(reqs, got, want):
        out.evaluations += 1
        out.distribution["body.compare (interpreted translated body vs implementation)"] += 1
        if has_unmodelled(m):
            out.unmodelled += 1
        elif m != i:
            out.disagreements.append({"op": "body.compare", "input": r, "model": m, "impl": i})


def overlaps_cases(ctx, out):
    """`LocatableOverlapIterator.__overlaps` / `__overlaps_with_barcode` on key objects: interpreted translated body vs
    the real class methods on real `_BarcodesAndCoordinateKey` objects (built without a record: Locatable.__init__ plus
    the two barcode attributes)."""
    from maflib.locatable import Locatable
    from maflib.overlap_iter import LocatableOverlapIterator as LOI
    from maflib.sort_order import _BarcodesAndCoordinateKey
    rng = ctx.rng("bodies-overlaps")

    def real(k):
        o = _BarcodesAndCoordinateKey.__new__(_BarcodesAndCoordinateKey)
        Locatable.__init__(o, k["chr"], k["start"], k["end"])
        o.tumor_barcode, o.normal_barcode = k["tumor"], k["normal"]
        return o
    chrs = [None, 0, 1, 2, 10, "1", "2", "X", "chr1"]
    pos = [1, 2, 3, 5, 8, 2 ** 63]
    bars = [None, "T1", "T2", ""]
    reqs, want = [], []
    for _ in range(ctx.scale(400, 4000)):
        a = {"chr": rng.choice(chrs), "start": rng.choice(pos), "tumor": rng.choice(bars), "normal": rng.choice(bars)}
        a["end"] = a["start"] + rng.choice([0, 1, 3, 7])
        b = dict(a) if rng.random() < 0.5 else {"chr": rng.choice(chrs), "start": rng.choice(pos), "tumor": rng.choice(bars), "normal": rng.choice(bars)}
        b["start"] = rng.choice(pos) if rng.random() < 0.7 else a["start"]
        b["end"] = b["start"] + rng.choice([0, 1, 3])
        if rng.random() < 0.05:
            (a if rng.random() < 0.5 else b)[rng.choice(["start", "end"])] = None       # a missing position: `<=` on None is Python's TypeError
        bar = rng.random() < 0.5
        reqs.append({"op": "body.overlaps", "a": a, "b": b, "barcodes": bar})
        try:
            f = getattr(LOI, "_LocatableOverlapIterator__overlaps_with_barcode" if bar else "_LocatableOverlapIterator__overlaps")
            want.append({"value": enc_val(f(real(a), real(b)))})
        except Exception as e:  # noqa
            want.append({"exc": exc_name(e)})
    got = ctx.driver.run(reqs)
    for r, m, i in zip(reqs, got, want):
        out.evaluations += 1
        out.distribution["body.overlaps (interpreted translated body vs implementation)"] += 1
        if has_unmodelled(m):
            out.unmodelled += 1
        elif m != i:
            out.disagreements.append({"op": "body.overlaps", "input": r, "model": m, "impl": i})


def allele_cases(ctx, out):
    """`AlleleOverlapType.equality / intersects / subset` on lists of allele texts (empty, equal, permuted, contained,
    repeated): interpreted translated body vs the real class methods."""
    from maflib.overlap_iter import AlleleOverlapType as AOT
    rng = ctx.rng("bodies-allele")
    pool = ["A", "C", "G", "T", "", "AT", "-"]
    reqs, want = [], []
    for _ in range(ctx.scale(300, 3000)):
        base = [rng.choice(pool) for _k in range(rng.randrange(0, 4))]
        other = list(base) if rng.random() < 0.3 else [rng.choice(pool) for _k in range(rng.randrange(0, 4))]
        if rng.random() < 0.2:
            other = other + other[:1]
        rel = rng.choice(["equality", "intersects", "subset"])
        reqs.append({"op": "body.allele", "rel": rel, "base": base, "other": other})
        try:
            want.append({"value": enc_val(getattr(AOT, rel)(list(base), list(other)))})
        except Exception as e:  # noqa
            want.append({"exc": exc_name(e)})
    got = ctx.driver.run(reqs)
    for r, m, i in zip(reqs, got, want):
        out.evaluations += 1
        out.distribution["body.allele (interpreted translated body vs implementation)"] += 1
        if has_unmodelled(m):
            out.unmodelled += 1
        elif m != i:
            out.disagreements.append({"op": "body.allele", "input": r, "model": m, "impl": i})


def translation_report(ctx, out):
    """What the body translator covered on this tree (evidence only)."""
    try:
        m = ctx.driver.run([{"op": "body.skipped"}])[0]
        out.extra["bodies_translated"] = m.get("translated")
        out.extra["bodies_skipped"] = ["%s.%s: %s" % tuple(x) for x in m.get("skipped", [])]
    except Exception as e:  # noqa
        out.notes.append("body translation report unavailable: %r" % e)
