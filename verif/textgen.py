"""Type-directed generators of field texts (mostly valid + a malformed stream)."""
import uuid

CTRL = ["\t", "\n", "\r", "\r\n", "\x0b", "\x0c", "\x1c", "\x85", " ", " "]
NONASCII = ["é", "ß", "ſ", "ı", "ﬁ", "K", "Ω", "日本", " ", "٣", "１２", "\U0001F600"]


def int_texts(rng):
    base = [0, 1, -1, 2, 7, 10, 42, 99, 100, 12345, -5, 2**31, 2**63, 10**20]
    out = [str(b) for b in base]
    out += ["00", "007", "-0", "+7", " 8", "8 ", "1_0", "1__0", "_1", "1_", "1.0", "1e3", "0x10", "--1", "+-1",
            "", " ", "-", "+", "1 2", "٣", "１２", "1\t", "1\n", "\n1", "12abc", "abc", "None", "True",
            # (a percent sign means nothing in a field; it does to whoever formats a message with it)
            "50%", "%d", "%", "²", "¹²", "①", "1²",      # digit-like characters that are no decimal digits: str.isdigit() says yes, int() says no
            # numerals beyond the interpreter's limit for int <-> text conversion (4300 digits): no integer the library can print
            "9" * 4301, "1e4300", "1" + "0" * 4300]
    for _ in range(6):
        n = rng.randrange(-10**6, 10**9)
        out.append(str(n))
    return out


def float_texts(rng):
    out = ["0.0", "1.5", "-2.25", "1e3", "1E-3", ".5", "5.", "nan", "inf", "-inf", "Infinity", "NaN", "1_0.5",
           " 1.5 ", "+1.5", "1.5.2", "e3", "1e", "0x1p3", "1,5", "", "abc", "0.1", "1e400", "-0.0", "3", "1.5%", "%f",
           "123456789.123456789", "1e-400"]
    for _ in range(4):
        out.append(repr(rng.uniform(-1e6, 1e6)))
    return out


def string_texts(rng):
    out = ["", "a", "abc", "Hello World", "a;b", "a;;b", ";", "x\ty", "x\ny", "x\ry", " lead", "trail ", "None",
           "0", "-", ".", "ÄÖ", "日本語", "a,b", "#x", "\x00", "'q'", '"dq"', "\\n", "p.Val600Glu", "c.1799T>A",
           "ENST00000288602",
           # quote characters have no meaning in a MAF field (no spreadsheet-style quoting): kept verbatim
           '"', '""', '"""q"""', '"a ""b"" c"', '"open', 'x"y', "'", '"a;b"', "100%", "%s", "%", "%(x)s", "a%zb"]
    for _ in range(3):
        n = rng.randrange(1, 12)
        out.append("".join(rng.choice("abcXYZ012 _-.;") for _ in range(n)))
    return out


def dna_texts(rng):
    out = ["A", "C", "G", "T", "ACGT", "-", "", "N", "acgt", "AC-GT", "A C", "--", "ACGTN", "TTTTTTTTTT", "A\t", "Ａ", "A%", "%s"]
    for _ in range(3):
        out.append("".join(rng.choice("ACGT") for _ in range(rng.randrange(1, 30))))
    return out


def uuid_texts(rng):
    u = uuid.UUID(int=rng.getrandbits(128))
    s = str(u)
    out = [s, s.upper(), u.hex, "{" + s + "}", "urn:uuid:" + s, "uuid:" + s, s.replace("-", ""), "{{" + s + "}}",
           s[:-1], s + "0", s[:8] + s[9:], "", "not-a-uuid", "0" * 32, "f" * 32, "g" * 32, "-" + u.hex,
           s[:10] + "-" + s[10:], "urn:" + s, "{" + s, s + "}", "00000000-0000-0000-0000-000000000000",
           " " + u.hex[1:], "0x" + u.hex[2:], "+" + u.hex[1:], u.hex[:16] + "_" + u.hex[17:]]
    return out


def case_variants(w):
    vs = {w, w.upper(), w.lower(), w.capitalize(), w.swapcase(), w.title()}
    if len(w) > 1:
        vs.add(w[0].lower() + w[1:].upper())
    return sorted(vs)


def enum_texts(rng, members):
    """members: [(name, value)]"""
    out = []
    for name, value in members:
        out += case_variants(value) + case_variants(name)
        out += [value + " ", " " + value, value + ";" + value, name + "\t"]
    out += ["", "Null", "null", "NULL", "nul", "Unknown", "yes", "YES", "Yes", "yeſ", "no", "y", "n", "1", "0",
            "2", "true", "TRUE", "falſe", "ＹＥＳ", "Y", "N", "%", "%s", "50%"]
    return out


def list_texts(rng, elems):
    elems = [e for e in elems if ";" not in e][:12] or ["a"]
    out = ["", ";", ";;", elems[0], elems[0] + ";", ";" + elems[0]]
    for _ in range(8):
        k = rng.randrange(1, 5)
        out.append(";".join(rng.choice(elems) for _ in range(k)))
    return out


def universal_texts(rng):
    return (int_texts(rng)[:14] + float_texts(rng)[:8] + string_texts(rng)[:14] + dna_texts(rng)[:6]
            + uuid_texts(rng)[:4] + ["Yes", "No", "YES", "True", "false", "Unknown", "SNP", "Somatic", "+", "-",
                                     "MODIFIER", "Transcript", "Illumina HiSeq", "Illumina HiSeq;454", "1;2;3",
                                     "yes;no", "1;0;", "Null"] + CTRL + NONASCII)


def mutate(rng, t):
    if not t:
        return rng.choice(["", " ", "0", "x"])
    k = rng.randrange(6)
    i = rng.randrange(len(t) + 1)
    if k == 0:
        return t[:i] + rng.choice(CTRL + NONASCII + list("+-_;. 0aZ")) + t[i:]
    if k == 1 and t:
        return t[:max(0, i - 1)] + t[i:]
    if k == 2:
        return t.upper()
    if k == 3:
        return t.lower()
    if k == 4:
        return t + t
    return t[::-1]
