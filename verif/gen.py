"""Translator: /repo source  ->  MafModel/Generated/*.lean

Everything in maf-lib that is *data or declarative structure* is re-extracted
from the working tree on every run with `ast` / `json` (maflib is never
imported here) and written as Lean definitions.  The Lean theorems that
quantify over "every built-in scheme / column type / vocabulary" are stated
over these generated tables, so `lake build` re-checks them against what the
code says now.

If a construct no longer has a translatable shape the translator raises
`Untranslatable`; the check runner treats that as a broken tie.
"""
import ast
import glob
import json
import os
import sys

REPO = os.environ.get("VERIF_REPO", "/repo")
HERE = os.path.dirname(os.path.abspath(__file__))
OUT = os.path.join(os.path.dirname(HERE), "lean", "MafModel", "MafModel", "Generated")


class Untranslatable(Exception):
    pass


def lstr(s):
    """Lean string literal."""
    out = ['"']
    for ch in s:
        o = ord(ch)
        if ch == '"':
            out.append('\\"')
        elif ch == "\\":
            out.append("\\\\")
        elif ch == "\n":
            out.append("\\n")
        elif ch == "\t":
            out.append("\\t")
        elif ch == "\r":
            out.append("\\r")
        elif o < 32 or o > 126:
            out.append("\\u{%x}" % o)
        else:
            out.append(ch)
    out.append('"')
    return "".join(out)


def llist(items, per_line=False):
    if per_line and items:
        return "[\n    " + ",\n    ".join(items) + "]"
    return "[" + ", ".join(items) + "]"


def lopt(x, f=lambda v: v):
    return "none" if x is None else "(some %s)" % f(x)


def parse(path):
    with open(os.path.join(REPO, path)) as h:
        return ast.parse(h.read(), filename=path)


# ---------------------------------------------------------------- enums
def extract_enums():
    tree = parse("maflib/column_values.py")
    enums = []
    for node in tree.body:
        if isinstance(node, ast.ClassDef):
            bases = [b.id for b in node.bases if isinstance(b, ast.Name)]
            if "MafEnum" not in bases:
                continue
            members = []
            for st in node.body:
                tgt = val = None
                if isinstance(st, ast.AnnAssign) and isinstance(st.target, ast.Name):
                    tgt, val = st.target.id, st.value
                elif isinstance(st, ast.Assign) and len(st.targets) == 1 and isinstance(st.targets[0], ast.Name):
                    tgt, val = st.targets[0].id, st.value
                elif isinstance(st, ast.Expr) and isinstance(st.value, ast.Constant):
                    continue  # docstring
                elif isinstance(st, ast.Pass):
                    continue
                else:
                    raise Untranslatable("enum %s: statement %s" % (node.name, ast.dump(st)[:80]))
                if not (isinstance(val, ast.Constant) and isinstance(val.value, str)):
                    raise Untranslatable("enum %s.%s: non-string value" % (node.name, tgt))
                members.append((tgt, val.value))
            enums.append((node.name, members))
    return enums


# ---------------------------------------------------------------- classes
CONST_HOOKS = ("__nullable_dict__", "__min_value__", "__max_value__",
               "__enum_class__", "__column_class__")


def const_return(fn, cname):
    """The single `return <expr>` of a constant hook (docstring allowed)."""
    body = [s for s in fn.body
            if not (isinstance(s, ast.Expr) and isinstance(s.value, ast.Constant))]
    if len(body) != 1 or not isinstance(body[0], ast.Return):
        raise Untranslatable("%s.%s: not a single return" % (cname, fn.name))
    return body[0].value


def tr_nullval(v, cname):
    if isinstance(v, ast.Constant) and v.value is None:
        return "NullVal.none"
    if isinstance(v, ast.List) and not v.elts:
        return "NullVal.emptyList"
    if isinstance(v, ast.Attribute) and isinstance(v.value, ast.Name):
        return "NullVal.enumMember %s %s" % (lstr(v.value.id), lstr(v.attr))
    raise Untranslatable("%s.__nullable_dict__: value %s" % (cname, ast.dump(v)))


def tr_nullkey(k, cname):
    if isinstance(k, ast.Constant) and isinstance(k.value, str):
        return lstr(k.value)
    # Enum.Member.name
    if (isinstance(k, ast.Attribute) and k.attr == "name"
            and isinstance(k.value, ast.Attribute) and isinstance(k.value.value, ast.Name)):
        return lstr(k.value.attr)
    raise Untranslatable("%s.__nullable_dict__: key %s" % (cname, ast.dump(k)))


def tr_const(fn, cname):
    e = const_return(fn, cname)
    if fn.name == "__nullable_dict__":
        if isinstance(e, ast.Constant) and e.value is None:
            return "nullDict", "(some none)"
        if isinstance(e, ast.Dict):
            items = ["(%s, %s)" % (tr_nullkey(k, cname), tr_nullval(v, cname))
                     for k, v in zip(e.keys, e.values)]
            return "nullDict", "(some (some %s))" % llist(items)
        raise Untranslatable("%s.__nullable_dict__: %s" % (cname, ast.dump(e)))
    if fn.name in ("__min_value__", "__max_value__"):
        field = "minV" if fn.name == "__min_value__" else "maxV"
        if isinstance(e, ast.Constant) and e.value is None:
            return field, "(some none)"
        if isinstance(e, ast.Constant) and isinstance(e.value, int) and not isinstance(e.value, bool):
            return field, "(some (some (%d : Int)))" % e.value
        if (isinstance(e, ast.UnaryOp) and isinstance(e.op, ast.USub)
                and isinstance(e.operand, ast.Constant) and isinstance(e.operand.value, int)):
            return field, "(some (some (-%d : Int)))" % e.operand.value
        raise Untranslatable("%s.%s: %s" % (cname, fn.name, ast.dump(e)))
    if fn.name in ("__enum_class__", "__column_class__"):
        field = "enumCls" if fn.name == "__enum_class__" else "elemCls"
        if isinstance(e, ast.Name):
            return field, "(some %s)" % lstr(e.id)
        raise Untranslatable("%s.%s: %s" % (cname, fn.name, ast.dump(e)))
    raise AssertionError


def is_abstract(fn):
    for d in fn.decorator_list:
        if isinstance(d, ast.Attribute) and d.attr == "abstractmethod":
            return True
        if isinstance(d, ast.Name) and d.id == "abstractmethod":
            return True
    return False


def extract_classes():
    out = []
    for path in ("maflib/column.py", "maflib/column_types.py"):
        tree = parse(path)
        for node in tree.body:
            if not isinstance(node, ast.ClassDef):
                continue
            bases = []
            for b in node.bases:
                if isinstance(b, ast.Name):
                    if b.id != "object":
                        bases.append(b.id)
                else:
                    raise Untranslatable("class %s: base %s" % (node.name, ast.dump(b)))
            hooks = []
            consts = {}
            for st in node.body:
                if isinstance(st, ast.FunctionDef):
                    if st.name in CONST_HOOKS and is_abstract(st):
                        continue  # abstract declaration only
                    hooks.append(st.name)
                    if st.name in CONST_HOOKS:
                        # the root class's `return None` default is a constant too
                        f, v = tr_const(st, node.name)
                        consts[f] = v
            out.append(dict(name=node.name, bases=bases, hooks=hooks, consts=consts,
                            module=path))
    return out


# ---------------------------------------------------------------- schemes
def extract_schemes():
    files = sorted(glob.glob(os.path.join(REPO, "maflib", "schemas", "*json")))
    out = []
    for f in files:
        with open(f) as h:
            d = json.load(h)
        cols = []
        for c in d["columns"]:
            if len(c) < 2 or len(c) > 3:
                raise Untranslatable("%s: column %r" % (f, c))
            cols.append((str(c[0]), str(c[1])))
        ext = d["extends"]
        flt = d["filtered"]
        out.append(dict(file=os.path.basename(f), version=d["version"],
                        annotation=d["annotation-spec"],
                        extends=None if ext == "None" else ext,
                        filtered=None if flt == "None" else list(flt),
                        columns=cols))
    return out


# ---------------------------------------------------------------- constants
def class_str_consts(tree, cname, names):
    res = {}
    for node in tree.body:
        if isinstance(node, ast.ClassDef) and node.name == cname:
            for st in node.body:
                if (isinstance(st, ast.Assign) and len(st.targets) == 1
                        and isinstance(st.targets[0], ast.Name)
                        and st.targets[0].id in names
                        and isinstance(st.value, ast.Constant)):
                    res[st.targets[0].id] = st.value.value
    missing = [n for n in names if n not in res]
    if missing:
        raise Untranslatable("%s: constants %s" % (cname, missing))
    return res


def extract_consts():
    c = {}
    # validation.py
    tree = parse("maflib/validation.py")
    for node in tree.body:
        if isinstance(node, ast.ClassDef) and node.name in ("MafValidationErrorType", "ValidationStringency"):
            names = []
            for st in node.body:
                if isinstance(st, ast.Assign) and isinstance(st.targets[0], ast.Name):
                    names.append(st.targets[0].id)
            c[node.name] = names
    # header.py
    h = class_str_consts(parse("maflib/header.py"), "MafHeader",
                         ["VersionKey", "AnnotationSpecKey", "SortOrderKey", "ContigKey",
                          "HeaderLineStartSymbol"])
    c.update(h)
    r = class_str_consts(parse("maflib/record.py"), "MafRecord", ["ColumnSeparator"])
    c.update(r)
    # sort_order.py: SortOrder.all() and which classes derive from Coordinate
    tree = parse("maflib/sort_order.py")
    so_all = None
    so_bases = {}
    for node in tree.body:
        if isinstance(node, ast.ClassDef):
            so_bases[node.name] = [b.id for b in node.bases if isinstance(b, ast.Name)]
            if node.name == "SortOrder":
                for st in node.body:
                    if isinstance(st, ast.FunctionDef) and st.name == "all":
                        e = const_return(st, "SortOrder")
                        if not (isinstance(e, ast.List) and all(isinstance(x, ast.Name) for x in e.elts)):
                            raise Untranslatable("SortOrder.all")
                        so_all = [x.id for x in e.elts]
    if so_all is None:
        raise Untranslatable("SortOrder.all not found")

    def is_coord(n, seen=()):
        if n == "Coordinate":
            return True
        return any(is_coord(b) for b in so_bases.get(n, []) if b not in seen)

    def has_barcodes(n):
        return n == "BarcodesAndCoordinate" or any(has_barcodes(b) for b in so_bases.get(n, []))
    c["SortOrders"] = [(n, is_coord(n), has_barcodes(n)) for n in so_all]
    # util.py: base order of extend_class
    tree = parse("maflib/util.py")
    order = None
    for node in tree.body:
        if isinstance(node, ast.FunctionDef) and node.name == "extend_class":
            args = [a.arg for a in node.args.args]
            for st in ast.walk(node):
                if (isinstance(st, ast.Call) and isinstance(st.func, ast.Name) and st.func.id == "type"
                        and len(st.args) == 3 and isinstance(st.args[1], ast.Tuple)):
                    elts = st.args[1].elts
                    if all(isinstance(x, ast.Name) and x.id in args for x in elts):
                        order = [args.index(x.id) for x in elts]   # 0 = base_cls, 1 = cls (the mixin)
    if order is None:
        raise Untranslatable("util.extend_class: type(name, (a, b), {}) not found")
    c["ExtendClassOrder"] = order
    return c


# ---------------------------------------------------------------- emit
HEADER = "-- GENERATED by verif/gen.py from the working tree of the repository. DO NOT EDIT.\n"


def emit_enums(enums):
    lines = [HEADER, "namespace Generated\n",
             "/-- every `MafEnum` subclass: (class name, [(member name, value)]) in source order -/",
             "def enums : List (String × List (String × String)) := ["]
    rows = []
    for name, members in enums:
        ms = llist(["(%s, %s)" % (lstr(a), lstr(b)) for a, b in members])
        rows.append("  (%s, %s)" % (lstr(name), ms))
    lines.append(",\n".join(rows) + "]")
    lines.append("\nend Generated\n")
    return "\n".join(lines)


def emit_classes(classes):
    lines = [HEADER, "import MafModel.Model.ClassTable", "open Model", "namespace Generated\n",
             "/-- every class of `maflib/column.py` and `maflib/column_types.py` in source order -/",
             "def classTable : List ClassEntry := ["]
    rows = []
    for c in classes:
        fields = ["name := %s" % lstr(c["name"]),
                  "bases := %s" % llist([lstr(b) for b in c["bases"]]),
                  "hooks := %s" % llist([lstr(h) for h in c["hooks"]])]
        for k, v in c["consts"].items():
            fields.append("%s := %s" % (k, v))
        rows.append("  { " + ", ".join(fields) + " }")
    lines.append(",\n".join(rows) + "]")
    lines.append("\nend Generated\n")
    return "\n".join(lines)


def emit_schemes(schemes):
    lines = [HEADER, "import MafModel.Model.ClassTable", "open Model", "namespace Generated\n"]
    names = []
    for i, s in enumerate(schemes):
        nm = "schemeDef%d" % i
        names.append(nm)
        cols = llist(["(%s, %s)" % (lstr(a), lstr(b)) for a, b in s["columns"]], per_line=True)
        lines.append("/-- %s -/" % s["file"])
        lines.append("def %s : SchemeDef := {" % nm)
        lines.append("  version := %s," % lstr(s["version"]))
        lines.append("  annotation := %s," % lstr(s["annotation"]))
        lines.append("  base := %s," % lopt(s["extends"], lstr))
        lines.append("  filtered := %s," % lopt(s["filtered"], lambda f: llist([lstr(x) for x in f])))
        lines.append("  columns := %s }\n" % cols)
    lines.append("/-- the shipped definitions, in sorted file-name order -/")
    lines.append("def schemeDefs : List SchemeDef := %s" % llist(names))
    lines.append("\nend Generated\n")
    return "\n".join(lines)


def emit_consts(c):
    lines = [HEADER, "namespace Generated\n"]
    lines.append("def errorTypes : List String := %s" % llist([lstr(x) for x in c["MafValidationErrorType"]]))
    lines.append("def stringencies : List String := %s" % llist([lstr(x) for x in c["ValidationStringency"]]))
    for k in ("VersionKey", "AnnotationSpecKey", "SortOrderKey", "ContigKey", "HeaderLineStartSymbol", "ColumnSeparator"):
        lines.append("def %s : String := %s" % (k[0].lower() + k[1:], lstr(c[k])))
    lines.append("/-- `SortOrder.all()`: (name, derives from Coordinate, uses barcodes) -/")
    lines.append("def sortOrders : List (String × Bool × Bool) := %s" % llist(
        ["(%s, %s, %s)" % (lstr(n), str(a).lower(), str(b).lower()) for n, a, b in c["SortOrders"]]))
    lines.append("/-- `extend_class(base_cls, cls)` builds `type(name, (…), {})`; positions index its")
    lines.append("    parameters: 0 = base_cls, 1 = cls (the mix-in) -/")
    lines.append("def extendClassOrder : List Nat := %s" % llist([str(x) for x in c["ExtendClassOrder"]]))
    lines.append("\nend Generated\n")
    return "\n".join(lines)


def write_if_changed(path, text):
    old = None
    if os.path.exists(path):
        with open(path) as h:
            old = h.read()
    if old != text:
        with open(path, "w") as h:
            h.write(text)
        return True
    return False


def extract_all():
    return dict(enums=extract_enums(), classes=extract_classes(),
                schemes=extract_schemes(), consts=extract_consts())


def fingerprints():
    """qualified function name -> hash of its AST (docstrings and comments ignored), for every function in maflib/*.py
    and every schema file.  Used only to direct the search: a changed function makes the checks anchored in its file
    generate more cases (runner.source_changes); it is never a verdict."""
    import hashlib
    fps = {}

    def visit(node, prefix, rel):
        for ch in ast.iter_child_nodes(node):
            if isinstance(ch, (ast.FunctionDef, ast.AsyncFunctionDef)):
                body = list(ch.body)
                if body and isinstance(body[0], ast.Expr) and isinstance(getattr(body[0], "value", None), ast.Constant) \
                        and isinstance(body[0].value.value, str):
                    body = body[1:]
                dump = ast.dump(ast.Module(body=body, type_ignores=[])) + ast.dump(ch.args) + \
                    "".join(ast.dump(x) for x in ch.decorator_list)
                fps["%s:%s%s" % (rel, prefix, ch.name)] = hashlib.sha1(dump.encode()).hexdigest()[:12]
                visit(ch, prefix + ch.name + ".", rel)
            elif isinstance(ch, ast.ClassDef):
                fps["%s:%s%s(bases)" % (rel, prefix, ch.name)] = hashlib.sha1(
                    "".join(ast.dump(b) for b in ch.bases).encode()).hexdigest()[:12]
                visit(ch, prefix + ch.name + ".", rel)
            elif not isinstance(ch, (ast.Import, ast.ImportFrom)) and prefix == "":
                # module-level statements
                key = "%s:<module>" % rel
                fps[key] = hashlib.sha1((fps.get(key, "") + ast.dump(ch)).encode()).hexdigest()[:12]

    for path in sorted(glob.glob(os.path.join(REPO, "maflib", "*.py"))):
        rel = "maflib/" + os.path.basename(path)
        try:
            import warnings
            with open(path) as h, warnings.catch_warnings():
                warnings.simplefilter("ignore")
                visit(ast.parse(h.read()), "", rel)
        except SyntaxError:
            fps[rel + ":<syntax-error>"] = "x"
    for path in sorted(glob.glob(os.path.join(REPO, "maflib", "schemas", "*json"))):
        with open(path, "rb") as h:
            fps["maflib/schemas/" + os.path.basename(path)] = hashlib.sha1(h.read()).hexdigest()[:12]
    return fps


BASELINE = os.path.join(os.path.dirname(os.path.abspath(__file__)), "fingerprints_baseline.json")


def source_changes():
    """Functions whose AST differs from the baseline recorded for the tree the model was last validated against."""
    try:
        with open(BASELINE) as h:
            b = json.load(h)
        if b.get("python") != list(sys.version_info[:2]):      # ast.dump differs between Python versions
            return None
        base = b["functions"]
    except (OSError, ValueError, KeyError):
        return None
    now = fingerprints()
    return sorted(k for k in set(base) | set(now) if base.get(k) != now.get(k))


def main():
    if "--baseline" in sys.argv:
        import subprocess
        head = subprocess.run(["git", "-C", REPO, "rev-parse", "--short", "HEAD"], stdout=subprocess.PIPE, text=True).stdout.strip()
        with open(BASELINE, "w") as h:
            json.dump({"repo_head": head, "python": list(sys.version_info[:2]), "functions": fingerprints()}, h, indent=0, sort_keys=True)
        print("baseline written for %s" % head)
        return None
    os.makedirs(OUT, exist_ok=True)
    d = extract_all()
    changed = []
    for name, text in (("Enums.lean", emit_enums(d["enums"])),
                       ("ClassTable.lean", emit_classes(d["classes"])),
                       ("SchemeDefs.lean", emit_schemes(d["schemes"])),
                       ("Consts.lean", emit_consts(d["consts"]))):
        if write_if_changed(os.path.join(OUT, name), text):
            changed.append(name)
    print("gen: %d enums, %d classes, %d schemes; rewritten: %s" % (
        len(d["enums"]), len(d["classes"]), len(d["schemes"]), changed or "none"))
    # method bodies -> PyIR terms (Generated/Bodies.lean)
    from . import gen_bodies
    gen_bodies.main()
    return d


if __name__ == "__main__":
    try:
        main()
    except Untranslatable as e:
        print("UNTRANSLATABLE: %s" % e)
        sys.exit(3)
